"""Symbolic proxy values.  The real (instrumented) function body is run by CPython over these;
operators build z3 terms, `bool()` of a symbolic condition forks the path.

Encoding assumptions (trusted base, listed in every evidence file):
  A-INT   python ints / numpy integer scalars are mathematical integers
  A-REAL  floats are mathematical reals (mode R); division by zero is a call-pre obligation
Everything not implemented raises OutOfSubset (fail closed).
"""
import z3
from .core import cur, OutOfSubset, forall_range, _z

IntS, RealS, BoolS = z3.IntSort(), z3.RealSort(), z3.BoolSort()
_POW = z3.Function('pow', RealS, RealS, RealS)      # uninterpreted x ** y for real exponents (see SNum.__pow__)


def is_sym(x):
    return isinstance(x, Sym)


class Sym:
    __slots__ = ('t',)

    def __hash__(self):
        return id(self)

    def _vc_fresh_like(self, name):
        raise OutOfSubset('cannot havoc %s' % type(self).__name__)


def lift(x):
    """python scalar / z3 term / proxy -> proxy"""
    if isinstance(x, Sym):
        return x
    if isinstance(x, bool):
        return SBool(z3.BoolVal(x))
    if isinstance(x, int):
        return SInt(z3.IntVal(x))
    if isinstance(x, float):
        if x != x or x in (float('inf'), float('-inf')):
            raise OutOfSubset('non-finite float constant in real mode')
        return SReal(z3.RealVal(repr(x)))
    if isinstance(x, z3.ExprRef):
        s = x.sort()
        if s == IntS:
            return SInt(x)
        if s == RealS:
            return SReal(x)
        if s == BoolS:
            return SBool(x)
        return SKey(x)
    try:
        import numpy as _np
        if isinstance(x, _np.integer):
            return SInt(z3.IntVal(int(x)))
        if isinstance(x, _np.floating):
            return lift(float(x))
        if isinstance(x, _np.bool_):
            return SBool(z3.BoolVal(bool(x)))
    except ImportError:
        pass
    raise OutOfSubset('cannot lift %r' % (x,))


def term(x):
    return lift(x).t


class SBool(Sym):
    __slots__ = ()

    def __init__(self, t):
        self.t = t

    def __bool__(self):
        return cur().branch(self.t)

    def __and__(self, o):
        return SBool(z3.And(self.t, _b(o)))
    __rand__ = __and__

    def __or__(self, o):
        return SBool(z3.Or(self.t, _b(o)))
    __ror__ = __or__

    def __invert__(self):
        return SBool(z3.Not(self.t))

    def __xor__(self, o):
        return SBool(z3.Xor(self.t, _b(o)))

    def __eq__(self, o):
        return SBool(self.t == _b(o))

    def __ne__(self, o):
        return SBool(self.t != _b(o))

    __hash__ = Sym.__hash__

    # numpy/python treat bools as 0/1 in arithmetic
    def _as_int(self):
        return SInt(z3.If(self.t, 1, 0))

    def __add__(self, o):
        return self._as_int() + o
    __radd__ = __add__

    def __mul__(self, o):
        return self._as_int() * o
    __rmul__ = __mul__

    def __sub__(self, o):
        return self._as_int() - o

    def __rsub__(self, o):
        return lift(o) - self._as_int()

    def __truediv__(self, o):       # True / x == 1 / x, False / x == 0 / x (python and numpy bools alike)
        return self._as_int() / o

    def __int__(self):
        raise OutOfSubset('int() of symbolic bool')

    def _vc_fresh_like(self, name):
        return SBool(cur().fresh(name, BoolS))

    def __repr__(self):
        return 'SBool(%s)' % self.t


def _b(o):
    if isinstance(o, bool):
        return z3.BoolVal(o)
    if isinstance(o, SBool):
        return o.t
    if isinstance(o, z3.ExprRef) and o.sort() == BoolS:
        return o
    if isinstance(o, int) and o in (0, 1):
        return z3.BoolVal(bool(o))
    raise OutOfSubset('expected a boolean, got %r' % (o,))


def _num(o):
    """-> (z3 term, is_real)"""
    if isinstance(o, SBool):
        o = o._as_int()
    if isinstance(o, SNum):
        return o.t, isinstance(o, SReal)
    if isinstance(o, bool):
        return z3.IntVal(int(o)), False
    if isinstance(o, int):
        return z3.IntVal(o), False
    if isinstance(o, float):
        return lift(o).t, True
    if isinstance(o, z3.ArithRef):
        return o, o.sort() == RealS
    try:
        import numpy as _np
        if isinstance(o, (_np.integer, _np.floating)):
            l = lift(o)
            return l.t, isinstance(l, SReal)
    except ImportError:
        pass
    return None, None


def _coerce(a, b):
    ta, ra = _num(a)
    tb, rb = _num(b)
    if ta is None or tb is None:
        return None
    if ra and not rb:
        tb = z3.ToReal(tb)
    if rb and not ra:
        ta = z3.ToReal(ta)
    return ta, tb, (ra or rb)


def _mk(t, real):
    return SReal(t) if real else SInt(t)


class SNum(Sym):
    __slots__ = ()

    def _bin(self, o, f, rev=False):
        c = _coerce(o, self) if rev else _coerce(self, o)
        if c is None:
            return NotImplemented
        a, b, real = c
        return _mk(f(a, b), real)

    def _cmp(self, o, f):
        c = _coerce(self, o)
        if c is None:
            return NotImplemented
        a, b, _ = c
        return SBool(f(a, b))

    def __add__(self, o): return self._bin(o, lambda a, b: a + b)
    def __radd__(self, o): return self._bin(o, lambda a, b: a + b, True)
    def __sub__(self, o): return self._bin(o, lambda a, b: a - b)
    def __rsub__(self, o): return self._bin(o, lambda a, b: a - b, True)
    def __mul__(self, o): return self._bin(o, lambda a, b: a * b)
    def __rmul__(self, o): return self._bin(o, lambda a, b: a * b, True)
    def __neg__(self): return _mk(-self.t, isinstance(self, SReal))
    def __pos__(self): return self
    def __abs__(self): return _mk(z3.If(self.t >= 0, self.t, -self.t), isinstance(self, SReal))

    def __truediv__(self, o):
        c = _coerce(self, o)
        if c is None:
            return NotImplemented
        return _div(c[0], c[1])

    def __rtruediv__(self, o):
        c = _coerce(o, self)
        if c is None:
            return NotImplemented
        return _div(c[0], c[1])

    def __floordiv__(self, o):
        c = _coerce(self, o)
        if c is None or c[2]:
            raise OutOfSubset('floor division outside int//int')
        return _floordiv(c[0], c[1])

    def __rfloordiv__(self, o):
        c = _coerce(o, self)
        if c is None or c[2]:
            raise OutOfSubset('floor division outside int//int')
        return _floordiv(c[0], c[1])

    def __mod__(self, o):
        c = _coerce(self, o)
        if c is None or c[2]:
            raise OutOfSubset('mod outside int%int')
        a, b, _ = c
        q = _floordiv(a, b)
        return SInt(a - b * q.t)

    def __pow__(self, o):
        if isinstance(o, float) and o.is_integer() and 0 <= o <= 4:      # x ** 2. : defined for every base, value of x ** 2 as a float
            r = SReal(z3.RealVal(1))
            for _ in range(int(o)):
                r = r * self
            return r
        if isinstance(o, int) and 0 <= o <= 4:
            r = lift(1)
            for _ in range(o):
                r = r * self
            return r
        if isinstance(o, float) and o == 0.5:
            from . import npspec
            return npspec.sqrt(self)
        if isinstance(o, float) and o == o and abs(o) != float('inf'):
            # x ** (concrete non-integer or negative float): uninterpreted real power of a POSITIVE base (python raises /
            # goes complex for other bases: that is a call-pre obligation); nothing is assumed about the value
            t = z3.ToReal(self.t) if isinstance(self, SInt) else self.t
            cur().oblige('call-pre[power with a real exponent: positive base]', t > 0)
            return SReal(_POW(t, z3.RealVal(repr(o))))
        raise OutOfSubset('power with exponent %r' % (o,))

    def __lt__(self, o): return self._cmp(o, lambda a, b: a < b)
    def __le__(self, o): return self._cmp(o, lambda a, b: a <= b)
    def __gt__(self, o): return self._cmp(o, lambda a, b: a > b)
    def __ge__(self, o): return self._cmp(o, lambda a, b: a >= b)

    def __eq__(self, o):
        if o is None:
            return False
        r = self._cmp(o, lambda a, b: a == b)
        if r is NotImplemented:
            if isinstance(o, (str, tuple, list, dict)):
                return False
        return r

    def __ne__(self, o):
        if o is None:
            return True
        r = self._cmp(o, lambda a, b: a != b)
        if r is NotImplemented:
            if isinstance(o, (str, tuple, list, dict)):
                return True
        return r

    __hash__ = Sym.__hash__

    def __bool__(self):
        return cur().branch(self.t != 0)

    def concrete(self):
        v = z3.simplify(self.t)
        if z3.is_int_value(v):
            return v.as_long()
        return None

    def __index__(self):
        v = self.concrete()
        if v is None:
            raise OutOfSubset('symbolic integer used where python needs a concrete index')
        return v

    def __repr__(self):
        return '%s(%s)' % (type(self).__name__, z3.simplify(self.t))

    def __format__(self, spec):
        return repr(self)


class SInt(SNum):
    __slots__ = ()

    def __init__(self, t):
        self.t = t

    def __int__(self):
        return self.__index__()

    def _vc_fresh_like(self, name):
        return SInt(cur().fresh(name, IntS))


class SReal(SNum):
    __slots__ = ()

    def __init__(self, t):
        self.t = t

    def __float__(self):
        raise OutOfSubset('float() of a symbolic real through the C slot')

    def _vc_fresh_like(self, name):
        return SReal(cur().fresh(name, RealS))


def _div(a, b):
    vc = cur()
    if a.sort() == IntS:
        a = z3.ToReal(a)
    if b.sort() == IntS:
        b = z3.ToReal(b)
    if vc.options.get('div_check', True):
        vc.oblige('call-pre[division by non-zero]', b != 0)
    return SReal(a / b)


def _floordiv(a, b):
    vc = cur()
    vc.oblige('call-pre[floor division by non-zero]', b != 0)
    # python floors; z3 `div` floors only for a positive divisor
    return SInt(z3.If(b > 0, a / b, (0 - a) / (0 - b)))


class SKey(Sym):
    """A value of an uninterpreted sort (node names, dict keys, opaque objects)."""
    __slots__ = ()

    def __init__(self, t):
        self.t = t

    def __eq__(self, o):
        if isinstance(o, SKey):
            return SBool(self.t == o.t)
        if isinstance(o, z3.ExprRef):
            return SBool(self.t == o)
        return False

    def __ne__(self, o):
        r = self.__eq__(o)
        return (not r) if isinstance(r, bool) else ~r

    __hash__ = Sym.__hash__

    def _vc_fresh_like(self, name):
        return SKey(cur().fresh(name, self.t.sort()))

    def __repr__(self):
        return 'SKey(%s)' % self.t


# ---------------------------------------------------------------------- helpers
def z_and(*xs):
    xs = [_z(x) for x in xs]
    return z3.And(*xs) if xs else z3.BoolVal(True)


def z_or(*xs):
    xs = [_z(x) for x in xs]
    return z3.Or(*xs) if xs else z3.BoolVal(False)


def z_implies(a, b):
    return z3.Implies(_z(a), _z(b))


def z_not(a):
    return z3.Not(_z(a))


def z_ite(c, a, b):
    c = _z(c)
    co = _coerce(a, b)
    if co is not None:
        ta, tb, real = co
        return _mk(z3.If(c, ta, tb), real)
    return lift(z3.If(c, term(a), term(b)))


def is_none(x):
    if x is None:
        return True
    f = getattr(x, '_vc_is_none', None)
    if f is not None:
        return f()
    return False


class SOpt(Sym):
    """Optional value: None | value, with a symbolic discriminator.  `x is None` (rewritten by the
    instrumenter to __vc__.is_(x, None)) forks; any use as a value obliges `not None`."""
    __slots__ = ('isnone', 'val')

    def __init__(self, isnone, val):
        self.isnone, self.val = _z(isnone), val

    def _vc_is_none(self):
        return SBool(self.isnone)

    def get(self, why='use of optional value'):
        cur().oblige('call-pre[%s: not None]' % why, z3.Not(self.isnone))
        return self.val

    def __bool__(self):
        # truthiness of an optional number: None -> False, value -> its own truthiness
        if cur().branch(self.isnone):
            return False
        return bool(self.val)

    def __getattr__(self, name):
        if name.startswith('__'):
            raise AttributeError(name)
        return getattr(self.get(name), name)

    def _vc_fresh_like(self, name):
        return SOpt(cur().fresh(name + '.none', BoolS), self.val._vc_fresh_like(name + '.val'))


def _opt_binop(name):
    def f(self, o):
        return getattr(self.get(name), name)(o)
    return f


for _n in ('__add__', '__radd__', '__sub__', '__rsub__', '__mul__', '__rmul__', '__truediv__', '__rtruediv__',
           '__lt__', '__le__', '__gt__', '__ge__', '__eq__', '__ne__', '__getitem__', '__neg__'):
    if _n in ('__eq__', '__ne__'):
        continue
    setattr(SOpt, _n, _opt_binop(_n))
