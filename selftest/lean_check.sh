#!/usr/bin/env bash
# Re-check the Lean-certified mathematics lemmas (thorough tier; DESIGN.md §2.4 LEAN).
#   selftest/lean_check.sh            -> one line per file, exit 0 iff every file is accepted
# A file is accepted iff `lean` exits 0, its output mentions neither `error` nor `sorry`, the source declares
# no `axiom`, and every `#print axioms` line lists only propext / Classical.choice / Quot.sound.
# Cold cache: ~3 min for the first file (loading Mathlib's .olean files), ~5 s each afterwards.
set -u
ROOT="$(cd "$(dirname "${BASH_SOURCE[0]}")/.." && pwd)"
LEAN="${LEAN:-lean}"
FILES=(L1.lean L2.lean L4.lean L5.lean SmtForms.lean)
ALLOWED_AXIOMS='propext Classical.choice Quot.sound'

if ! command -v "$LEAN" >/dev/null 2>&1; then
    echo "lean_check: FAIL  no '$LEAN' executable on PATH"
    exit 1
fi

cd "$ROOT/lemmas" || { echo "lean_check: FAIL  no directory $ROOT/lemmas"; exit 1; }
rc=0
for f in "${FILES[@]}"; do
    if [ ! -f "$f" ]; then
        echo "lean_check: $f  REJECTED  (file missing)"
        rc=1
        continue
    fi
    t0=$(date +%s)
    out="$("$LEAN" "$f" 2>&1)"
    st=$?
    t1=$(date +%s)
    why=''
    [ "$st" -ne 0 ] && why="$why lean-exit=$st"
    printf '%s\n' "$out" | grep -qi 'error' && why="$why error-in-output"
    printf '%s\n' "$out" | grep -qi 'sorry' && why="$why sorry-in-output"
    grep -qE '^[[:space:]]*(private[[:space:]]+|protected[[:space:]]+)?axiom[[:space:]]' "$f" && why="$why axiom-declared-in-source"
    grep -qw 'sorry' "$f" && why="$why sorry-in-source"
    # axioms reported by `#print axioms` (the list may be wrapped over several lines)
    flat="$(printf '%s' "$out" | tr '\n' ' ')"
    nprint=$(printf '%s\n' "$out" | grep -c "depends on axioms\|does not depend on any axioms")
    used="$(printf '%s' "$flat" | grep -o 'depends on axioms: \[[^]]*\]' | sed -e 's/.*\[//' -e 's/\]//' | tr ',' '\n' | tr -d ' ' | sort -u | grep -v '^$')"
    for a in $used; do
        case " $ALLOWED_AXIOMS " in
            *" $a "*) ;;
            *) why="$why non-standard-axiom=$a" ;;
        esac
    done
    # SmtForms.lean must end with its `#print axioms` block (one line per exported theorem)
    want=$(grep -c '^#print axioms ' "$f")
    [ "$nprint" -ne "$want" ] && why="$why print-axioms-lines=$nprint/$want"
    if [ -z "$why" ]; then
        echo "lean_check: $f  accepted  (${want} #print axioms, $((t1 - t0)) s)"
    else
        echo "lean_check: $f  REJECTED  ($(echo $why), $((t1 - t0)) s)"
        printf '%s\n' "$out" | sed 's/^/    | /' | head -40 >&2      # diagnostics on stderr: stdout stays one line per file
        rc=1
    fi
done
exit $rc
