"""Self-test of the checks: applies each seeded edit of selftest/mutants.json to a SCRATCH copy of
/repo/elfi (under /var/tmp, removed afterwards), runs ./check <prop> --repo <scratch> and compares
the exit code with the expectation ('kill' -> exit 1 with a VIOLATION line, 'survive' -> exit 0).

  selftest/run.py [--prop C15] [--id substring] [--jobs N] [--keep]
Exit 0 iff every must-kill mutant is killed and every must-survive edit survives."""
import argparse
import json
import os
import shutil
import subprocess
import sys
import tempfile
from concurrent.futures import ThreadPoolExecutor

ROOT = os.path.dirname(os.path.dirname(os.path.abspath(__file__)))


def run_one(m, keep=False, tier='quick'):
    d = tempfile.mkdtemp(prefix='pyvc-mut-', dir='/var/tmp')
    try:
        # PYVC_SELFTEST_BASE: tree the edits are applied to (default /repo); a scratch copy with candidate repairs makes
        # kill/survive expectations meaningful for properties whose check already reports defects on the unchanged tree
        shutil.copytree(os.path.join(os.environ.get('PYVC_SELFTEST_BASE', '/repo'), 'elfi'), os.path.join(d, 'elfi'),
                        ignore=shutil.ignore_patterns('__pycache__', '*.pyc', 'bdm'))
        edits = m.get('edits') or [dict(file=m['file'], find=m['find'], replace=m['replace'])]
        for e in edits:
            p = os.path.join(d, e['file'])
            src = open(p).read()
            if src.count(e['find']) != 1:
                return dict(id=m['id'], ok=False, why='edit anchor found %d times in %s' % (src.count(e['find']), e['file']))
            open(p, 'w').write(src.replace(e['find'], e['replace']))
        try:
            compile(open(p).read(), p, 'exec')
        except SyntaxError as ex:
            return dict(id=m['id'], ok=False, why='mutant does not compile: %s' % ex)
        env = dict(os.environ, PYVC_REPO=d)
        r = subprocess.run([os.path.join(ROOT, 'check'), m['property'], '--repo', d, '--no-evidence', '--tier', tier, '--jobs', '2'],
                           capture_output=True, text=True, env=env, cwd=ROOT, timeout=1800)
        out = r.stdout + r.stderr
        viol = [l for l in out.splitlines() if l.startswith('VIOLATION')]
        degr = [l for l in out.splitlines() if l.startswith('DEGRADED')]
        want = m.get('expect', 'kill')
        if want == 'kill':
            ok = r.returncode == 1 and bool(viol)
        elif want == 'survive':
            ok = r.returncode == 0 and not viol
        else:   # 'degrade': no alarm, proof may fall back to bounded
            ok = r.returncode == 0 and not viol
        return dict(id=m['id'], ok=ok, rc=r.returncode, expect=want, violations=[v[:230] for v in viol[:3]], degraded=len(degr),
                    replayed=sum(1 for v in viol if 'no-failing-input-found' not in v), tail=out.splitlines()[-3:] if not ok else [])
    finally:
        if not keep:
            shutil.rmtree(d, ignore_errors=True)


def main():
    ap = argparse.ArgumentParser()
    ap.add_argument('--prop')
    ap.add_argument('--id')
    ap.add_argument('--jobs', type=int, default=6)
    ap.add_argument('--keep', action='store_true')
    ap.add_argument('--tier', default='quick')
    a = ap.parse_args()
    ms = []
    import glob
    for f in sorted(glob.glob(os.path.join(ROOT, 'selftest', 'mutants.d', '*.json'))):
        ms.extend(json.load(open(f)))
    ms = [m for m in ms if (not a.prop or m['property'] == a.prop.upper()) and (not a.id or a.id in m['id'])]
    with ThreadPoolExecutor(a.jobs) as ex:
        res = list(ex.map(lambda m: run_one(m, a.keep, a.tier), ms))
    bad = 0
    for r in res:
        print(('ok   ' if r['ok'] else 'FAIL ') + json.dumps(r))
        bad += not r['ok']
    print('%d/%d as expected' % (len(res) - bad, len(res)))
    return 1 if bad else 0


if __name__ == '__main__':
    sys.exit(main())
