"""Differential self-check of the numpy spec table and the array proxies (the largest trusted piece of
the engine): the same python expression is evaluated (a) by the installed numpy on concrete arrays and
(b) by pyvc.npspec / pyvc.sarray on proxies holding the same concrete values; every element of (b),
decided by z3 under the axioms the spec functions assumed, must equal (a); every call-pre obligation
the spec emits on a VALID call must be true, and a call numpy rejects must leave a false obligation
or raise.  Exit 0 iff all cases agree.   selftest/spec_diff.py [-v]"""
import os
import sys
import traceback

sys.path.insert(0, os.path.dirname(os.path.dirname(os.path.abspath(__file__))))
import numpy as np
import z3

from pyvc import core, npspec, pyspec
from pyvc.core import VC
from pyvc.sarray import SArr, Cell, SPerm
from pyvc.values import SInt, SReal, SBool, lift

VERBOSE = '-v' in sys.argv


def to_proxy(x):
    if isinstance(x, np.ndarray):
        kind = 'bool' if x.dtype == bool else 'int' if np.issubdtype(x.dtype, np.integer) else 'real'
        flat = {idx: x[idx] for idx in np.ndindex(x.shape)}

        def elt(*i, flat=flat, kind=kind):
            r = z3.BoolVal(False) if kind == 'bool' else z3.IntVal(0) if kind == 'int' else z3.RealVal(0)
            for idx, v in flat.items():
                val = z3.BoolVal(bool(v)) if kind == 'bool' else z3.IntVal(int(v)) if kind == 'int' else z3.RealVal(repr(float(v)))
                r = z3.If(z3.And(*[a == b for a, b in zip(i, idx)]) if idx else z3.BoolVal(True), val, r)
            return r
        return SArr(Cell(elt, tuple(z3.IntVal(s) for s in x.shape), kind))
    if isinstance(x, (bool, np.bool_)):
        return bool(x)
    if isinstance(x, (int, np.integer)):
        return int(x)
    if isinstance(x, (float, np.floating)):
        return float(x)
    return x


def evaluate(vc, v):
    """proxy result -> numpy value, using a model of the path condition (axioms of fresh spec symbols)"""
    s = z3.Solver()
    for p in vc.pc:
        s.add(p)
    assert s.check() == z3.sat, 'spec axioms inconsistent on concrete input'
    m = s.model()

    def ev(t):
        r = m.eval(t, model_completion=True)
        if z3.is_true(r):
            return True
        if z3.is_false(r):
            return False
        if z3.is_int_value(r):
            return r.as_long()
        if z3.is_rational_value(r):
            return float(r.as_fraction())
        if z3.is_algebraic_value(r):
            return float(r.approx(20).as_fraction())
        raise ValueError('cannot evaluate %s' % r)
    if isinstance(v, tuple):
        return tuple(evaluate(vc, x) for x in v)
    if isinstance(v, SPerm):
        v = v.as_array()
    if isinstance(v, SArr):
        shape = tuple(ev(d) for d in v.shape)
        out = np.empty(shape, dtype=object)
        for idx in np.ndindex(shape):
            out[idx] = ev(v.at(*idx))
        return out
    if isinstance(v, (SInt, SReal, SBool)):
        return ev(v.t)
    if isinstance(v, z3.ExprRef):
        return ev(v)
    return v


def obligations_ok(vc):
    bad = []
    for o in vc.obligations:
        s = z3.Solver()
        for p in o.pc:
            s.add(p)
        s.add(z3.Not(o.goal))
        if s.check() != z3.unsat:
            bad.append(o.kind)
    return bad


CASES = []


def case(name, fn, *args, check=None, invalid=False):
    CASES.append((name, fn, args, check, invalid))


A = np.array([3.0, -1.0, 2.5, 2.5, 0.0])
B5 = np.array([1.0, 2.0, 3.0, 4.0, 5.0])
M = np.array([[1.0, 2.0, 3.0], [4.0, 5.0, 6.0]])
MASK = np.array([True, False, True, True, False])
IDX = np.array([4, 0, 2])
EMPTY = np.array([], dtype=float)

case('index', lambda np_, a: a[1], A)
case('neg index', lambda np_, a: a[-2], A)
case('index out of range', lambda np_, a: a[7], A, invalid=True)
case('slice', lambda np_, a: a[1:4], A)
case('slice open', lambda np_, a: a[2:], A)
case('slice neg', lambda np_, a: a[-2:], A)
case('slice neg stop', lambda np_, a: a[:-1], A)
case('slice clamp', lambda np_, a: a[3:99], A)
case('slice empty', lambda np_, a: a[4:2], A)
case('slice -0', lambda np_, a: a[-0:], A)
case('slice of slice', lambda np_, a: a[1:][1:3], A)
case('2d row', lambda np_, m: m[1], M)
case('2d elem', lambda np_, m: m[1, 2], M)
case('2d col', lambda np_, m: m[:, 1], M)
case('2d last row', lambda np_, m: m[-1], M)
case('2d sub', lambda np_, m: m[0:1, 1:], M)
case('transpose', lambda np_, m: np_.transpose(m), M)
case('T elem', lambda np_, m: m.T[2, 1], M)
case('mask select', lambda np_, a, k: a[k], A, MASK)
case('fancy', lambda np_, a, i: a[i], A, IDX)
case('2d mask rows', lambda np_, m, k: m[k], M, np.array([False, True]))


def w_slice(np_, a):
    a = a.copy() if isinstance(a, np.ndarray) else a.snapshot()
    v = a[1:3]
    v[:] = 9.0
    return a


case('write through view', w_slice, A)


def w_tail(np_, a, b):
    a = a.copy() if isinstance(a, np.ndarray) else a.snapshot()
    a[-2:] = b[:2]
    return a


case('tail write', w_tail, A, B5)


def w_mask(np_, a, k):
    a = a.copy() if isinstance(a, np.ndarray) else a.snapshot()
    a[k] = 7.0
    return a


case('mask write scalar', w_mask, A, MASK)


def w_mask_arr(np_, a, k, b):
    a = a.copy() if isinstance(a, np.ndarray) else a.snapshot()
    a[k] = b[:3]
    return a


case('mask write array', w_mask_arr, A, MASK, B5)


def w_elem(np_, m):
    m = m.copy() if isinstance(m, np.ndarray) else m.snapshot()
    m[1, 0] = -4.0
    m[0][2] = 8.0
    return m


case('element writes (2d, chained)', w_elem, M)


def w_iadd(np_, a, b):
    a = a.copy() if isinstance(a, np.ndarray) else a.snapshot()
    a += 2 * b
    return a


case('in-place add', w_iadd, A, B5)
case('arith', lambda np_, a, b: (a - b) * 2 + a / (b + 1), A, B5)
case('compare', lambda np_, a, b: a <= b - 2, A, B5)
case('broadcast row', lambda np_, m: m - np_.array([1.0, 1.0, 2.0]), M)
case('neg/pow', lambda np_, a: (-a) ** 2, A)
case('bool ops', lambda np_, a, k: (a > 0) & ~k | (a == 0), A, MASK)
case('atleast_2d', lambda np_, a: np_.atleast_2d(a), A)
case('atleast_1d scalar', lambda np_, a: np_.atleast_1d(a[0]), A)
case('atleast_2d [-1]', lambda np_, a: np_.atleast_2d(np_.transpose(a))[-1], A)
case('squeeze', lambda np_, m: np_.squeeze(m[0:1]), M)
case('expand_dims', lambda np_, a: np_.expand_dims(a, 0), A)
case('reshape 1->2', lambda np_, a: np_.reshape(np_.concatenate((a, a[:1])), (2, 3)), A)
case('reshape -1', lambda np_, m: m.reshape(-1), M)
case('reshape (-1,1)', lambda np_, a: a.reshape((-1, 1)), A)
case('flatten', lambda np_, m: m.flatten(), M)
case('column_stack', lambda np_, a, b, m: np_.column_stack((a[:2], m, b[:2])), A, B5, M)
case('concatenate', lambda np_, a, b: np_.concatenate((a, b[:2])), A, B5)
case('concatenate axis1', lambda np_, m: np_.concatenate((m, m[:, :1]), axis=1), M)
case('vstack', lambda np_, m: np_.vstack((m, m[0])), M)
case('sum', lambda np_, a: np_.sum(a), A)
case('sum mask', lambda np_, k: np_.sum(k), MASK)
case('sum axis0', lambda np_, m: np_.sum(m, axis=0), M)
case('sum axis1', lambda np_, m: m.sum(axis=1), M)
case('mean', lambda np_, a: np_.mean(a), A)
case('mean axis0', lambda np_, m: m.mean(0), M)
case('cumsum', lambda np_, a: np_.cumsum(a), A)
case('insert', lambda np_, a: np_.insert(np_.cumsum(a), 0, 0), A)
case('all/any', lambda np_, k: (np_.all(k), np_.any(k), np_.all(k[2:4])), MASK)
case('all axis0', lambda np_, m: np_.all(np_.atleast_2d(m[0] > 1.5), axis=0), M)
case('any axis1', lambda np_, m: np_.any(m > 4.5, axis=1), M)
case('where idx', lambda np_, k: np_.where(k)[0], MASK)
case('where 3', lambda np_, a, b: np_.where(a > 1, a, b), A, B5)
case('logical_and', lambda np_, a: np_.logical_and(a[:-1] < 2.6, 2.0 <= a[1:]), A)
case('argsort', lambda np_, a: a[np_.argsort(a)], A, check=lambda got, ref: np.all(np.diff(np.asarray(got, float)) >= 0) and sorted(np.asarray(got, float).tolist()) == sorted(ref.tolist()))
case('argmin', lambda np_, a: a[np_.argmin(a)], A)
case('clip', lambda np_, a: np_.clip(a, 0.0, 2.6), A)
case('clip scalar', lambda np_, a: np_.clip(a[0], 0.0, 2.6), A)
case('minimum/maximum', lambda np_, a, b: np_.maximum(np_.minimum(a, b), 0.5), A, B5)
case('abs', lambda np_, a: np_.abs(a), A)
case('dot 1-1', lambda np_, a, b: np_.dot(a, b), A, B5)
case('dot 2-1', lambda np_, m: np_.dot(m, np_.array([1.0, 0.5, 2.0])), M)
case('dot 1-2', lambda np_, m: np_.array([2.0, -1.0]).dot(m), M)
case('average', lambda np_, a, b: np_.average(a, weights=b), A, B5)
case('average axis0', lambda np_, m: np_.average(m, weights=np_.array([1.0, 3.0]), axis=0), M)
case('diag', lambda np_, a: np_.diag(a[:3]), A)
case('diag of matrix', lambda np_, m: np_.diag(m[:, :2]), M)
case('count_nonzero', lambda np_, a: np_.count_nonzero(a), A)
case('zeros/ones/full', lambda np_: np_.concatenate((np_.zeros(2), np_.ones(1), np_.full((2,), 3.5))))
case('ones * inf sorted last', lambda np_, a: np_.argsort(np_.concatenate((a[:2], np_.ones(1) * np_.inf)))[-1], A)
case('square/sqrt', lambda np_, b: np_.sqrt(np_.square(b))[2], B5, check=lambda got, ref: abs(float(got) - float(ref)) < 1e-9)
case('empty sum', lambda np_, e: np_.sum(e), EMPTY)
case('len/shape/ndim', lambda np_, m: (len(m), m.shape[1], m.ndim, np_.ndim(m[0]), m.size), M)
case('zip/len builtins', lambda np_, a: pyspec.vc_len(a[1:]) if not isinstance(a, np.ndarray) else len(a[1:]), A)
case('broadcast mismatch', lambda np_, a, m: a + m[0], A, M, invalid=True)
case('mask length mismatch', lambda np_, a: a[np_.array([True, False])], A, invalid=True)


def run():
    failures = 0
    specnp = npspec.module()
    for name, fn, args, check, invalid in CASES:
        try:
            ref = fn(np, *args)
            ref_err = None
        except Exception as e:
            ref, ref_err = None, e
        vc = VC('selftest/' + name, fin=8, fin_range=9)
        core._CUR[0] = vc
        try:
            got_p = fn(specnp, *[to_proxy(a) for a in args])
            bad = obligations_ok(vc)
            if invalid:
                ok = bool(bad) and ref_err is not None
                why = '' if ok else 'numpy rejects this call but the spec left no failing obligation (bad=%r, numpy err=%r)' % (bad, ref_err)
            else:
                got = evaluate(vc, got_p)
                if bad:
                    ok, why = False, 'valid call but obligations fail: %r' % bad
                elif check is not None:
                    ok = bool(check(got, ref))
                    why = '' if ok else 'custom check failed: got %r ref %r' % (got, ref)
                else:
                    g = np.asarray(got, dtype=float) if not isinstance(got, tuple) else np.asarray([float(x) for x in got])
                    r = np.asarray(ref, dtype=float) if not isinstance(ref, tuple) else np.asarray([float(x) for x in ref])
                    ok = g.shape == r.shape and np.allclose(g, r, rtol=1e-9, atol=1e-12)
                    why = '' if ok else 'got %r (shape %r) numpy %r (shape %r)' % (g.tolist(), g.shape, r.tolist(), r.shape)
        except core.OutOfSubset as e:
            ok, why = invalid, 'OutOfSubset: %s' % e
        except Exception as e:
            ok = invalid and ref_err is not None
            why = '%s: %s' % (type(e).__name__, e)
            if VERBOSE:
                traceback.print_exc()
        finally:
            core._CUR[0] = None
        if not ok:
            failures += 1
        if VERBOSE or not ok:
            print('%s %-28s %s' % ('ok  ' if ok else 'FAIL', name, why))
    print('spec_diff: %d cases, %d disagreements' % (len(CASES), failures))
    return 1 if failures else 0


if __name__ == '__main__':
    sys.exit(run())
