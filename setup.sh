#!/bin/bash
# Builds /verif/.venv: a Python 3.12 overlay venv with the solver/tooling wheels from the offline
# wheelhouse plus a .pth that exposes /venv's site-packages (elfi + numpy/scipy/networkx/GPy).
# Offline; idempotent; ~30 s.  Everything the checks need beyond this is read from /repo at run time.
set -euo pipefail
cd "$(dirname "$0")"
V=.venv
STAMP=$V/.ok
if [ -f "$STAMP" ] && "$V/bin/python" -c 'import z3, sympy, jsonschema' 2>/dev/null; then
  echo "setup: $V already usable"; exit 0
fi
rm -rf "$V"
/venv/bin/python -m venv "$V"
PIP_NO_INDEX=1 "$V/bin/pip" install --quiet --no-index --find-links /opt/veriftools/wheels \
    z3-solver cvc5 sympy jsonschema hypothesis icontract deal crosshair-tool >/dev/null
SP=$("$V/bin/python" -c 'import sysconfig; print(sysconfig.get_paths()["purelib"])')
echo "import site; site.addsitedir('/venv/lib/python3.12/site-packages')" > "$SP/zz_venv.pth"
"$V/bin/python" - <<'EOF'
import z3, sympy, jsonschema, numpy, scipy, networkx
import elfi
print('setup: z3', z3.get_version_string(), 'sympy', sympy.__version__, 'numpy', numpy.__version__, 'elfi', elfi.__version__)
EOF
touch "$STAMP"
