"""tools/dbg.py Cnn <contract-substr> [<obligation-substr>] [--show] [--t ms] [--fin]: generate one contract, list/try obligations"""
import sys, time, importlib, os
sys.path.insert(0, os.path.dirname(os.path.dirname(os.path.abspath(__file__))))
import z3
from pyvc.engine import FunctionRun
args = [a for a in sys.argv[1:] if not a.startswith('--')]
show = '--show' in sys.argv; fin = '--fin' in sys.argv
t_ms = int(sys.argv[sys.argv.index('--t') + 1]) if '--t' in sys.argv else 5000
mod = importlib.import_module('contracts.' + args[0].lower())
for c in mod.CONTRACTS:
    if args[1] not in c.cname: continue
    run = FunctionRun(c, fin=(c.fin if fin else None)).generate()
    print('==', c.cname, 'error:', run.error, 'paths:', run.vc.n_paths if run.vc else None, 'gen %.2fs' % getattr(run, 'gen_s', 0))
    for o in run.vc.obligations:
        if len(args) > 2 and args[2] not in o.name: continue
        if o.expect != 'unsat': continue
        s = z3.Solver(); s.set('timeout', t_ms)
        for a in run.vc.axioms: s.add(a)
        for p in o.pc: s.add(p)
        if fin:
            for b in run.vc.fin_bounds: s.add(b >= 0, b < c.fin)
        s.add(z3.Not(o.goal)); t = time.time(); r = s.check()
        print('  %-8s %5.2fs %s' % (r, time.time() - t, o.name))
        if show:
            for p in o.pc: print('     PC', str(p).replace('\n', ' ')[:400])
            print('     GOAL', str(o.goal).replace('\n', ' ')[:600])
            if r == z3.sat and fin: print('     MODEL', str(s.model())[:1500])
