#!/usr/bin/env python3
"""fills the two generated tables of DESIGN.md section 0.4 / 0.5 (between marker comments) from tools/status_table.py"""
import os, re, subprocess, sys
ROOT = os.path.dirname(os.path.dirname(os.path.abspath(__file__)))
out = subprocess.check_output([sys.executable, os.path.join(ROOT, 'tools', 'status_table.py')], text=True)
status, seeded = out.split('\n\n', 1)
p = os.path.join(ROOT, 'DESIGN.md')
s = open(p).read()
def put(s, tag, body):
    a, b = '<!-- %s:begin -->' % tag, '<!-- %s:end -->' % tag
    block = a + '\n' + body.strip() + '\n' + b
    if a in s:
        return re.sub(re.escape(a) + '.*?' + re.escape(b), lambda m: block, s, flags=re.S)
    return s.replace(tag.upper() + '_PLACEHOLDER', block)
s = put(s, 'status_table', status)
s = put(s, 'seeded_table', seeded)
open(p, 'w').write(s)
print('DESIGN.md tables updated')
