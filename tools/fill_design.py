#!/usr/bin/env python3
"""fills the two generated tables of DESIGN.md section 0.4 / 0.5 (between marker comments) from tools/status_table.py"""
import os, re, subprocess, sys
ROOT = os.path.dirname(os.path.dirname(os.path.abspath(__file__)))
out = subprocess.check_output([sys.executable, os.path.join(ROOT, 'tools', 'status_table.py')], text=True)
status, seeded, refac = out.split('\n\n', 2)
p = os.path.join(ROOT, 'DESIGN.md')
s = open(p).read()
def put(s, tag, body):
    a, b = '<!-- %s:begin -->' % tag, '<!-- %s:end -->' % tag
    block = a + '\n' + body.strip() + '\n' + b
    if a in s:
        return re.sub(re.escape(a) + '.*?' + re.escape(b), lambda m: block, s, flags=re.S)
    return s.replace(tag.upper() + '_PLACEHOLDER', block)
s = put(s, 'status_table', status)
s = put(s, 'seeded_table', seeded)
s = put(s, 'refactor_table', refac)
# per-property claims, read from the contract modules without importing them
import ast, json
claims = []
for line in open(os.path.join(ROOT, 'properties.jsonl')):
    pr = json.loads(line)
    pid = pr['id']
    f = os.path.join(ROOT, 'contracts', pid.lower() + '.py')
    meta, notp = {}, []
    if os.path.exists(f):
        for n in ast.parse(open(f).read()).body:
            if isinstance(n, ast.Assign) and isinstance(n.targets[0], ast.Name):
                try:
                    if n.targets[0].id == 'MANIFEST':
                        meta = ast.literal_eval(n.value)
                    elif n.targets[0].id == 'NOT_PROVED':
                        notp = ast.literal_eval(n.value)
                except Exception:
                    pass
    claims.append('**%s — %s.** *Proved:* %s *Trusted / assumed:* %s%s' % (
        pid, pr['title'], meta.get('text', '-'), meta.get('note', '-'),
        (' *Not decided (verbatim clauses / limits):* ' + ' · '.join(str(x) for x in notp)) if notp else ''))
s = put(s, 'claims', '\n\n'.join(claims))
open(p, 'w').write(s)
print('DESIGN.md tables updated')
