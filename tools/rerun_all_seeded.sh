#!/bin/bash
# re-runs every kept seeded change against its own property's check and every check that detected it before (P jobs in parallel)
cd "$(dirname "$0")/.."
P=${1:-4}
ls seeded | grep '^c[0-9][0-9]_[0-9]$' | while read id; do
  props=$(python3 - "$id" <<'PY'
import json, sys
i = sys.argv[1]
own = i[:3].upper()
ps = [own]
try:
    r = json.load(open('/verif/seeded/%s/result.json' % i))
    for k, v in r.get('checks', {}).items():
        if v.get('detected') and k not in ps:
            ps.append(k)
except Exception:
    pass
print(','.join(ps))
PY
)
  echo "$id $props"
done | xargs -P "$P" -L 1 bash -c 'timeout 3600 .venv/bin/python tools/run_seeded.py seeded/$0 --props $1 > /var/tmp/rerun_$0.log 2>&1; python3 -c "
import json,sys
r=json.load(open(\"/verif/seeded/$0/result.json\"))
print(\"$0\", \"confirmed=%s\" % r.get(\"confirmed\"), {k:(\"DET\" if v[\"detected\"] else \"miss\", v[\"replayed\"], v[\"degraded\"]) for k,v in r.get(\"checks\",{}).items() if not v.get(\"stale\")})"'
