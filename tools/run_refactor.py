#!/usr/bin/env python3
"""tools/run_refactor.py <refac-dir> [--props C14,C03]

Imports an independently produced BEHAVIOUR-PRESERVING refactoring (patch.diff, equiv.py = differential test,
meta.json; produced by a fresh sub-agent that saw only the property text) into /verif/refactors/<id>/, confirms
it (equiv.py exits 0 with the patch and without), runs the named checks against a scratch copy of /repo/elfi with
the patch applied and records what each check said in refactors/<id>/result.json: any VIOLATION line is a FALSE
ALARM of the machinery; DEGRADED lines are acceptable (undecided).  Scratch is removed afterwards."""
import argparse
import json
import os
import shutil
import subprocess
import sys
import tempfile
import time

ROOT = os.path.dirname(os.path.dirname(os.path.abspath(__file__)))


def sh(cmd, **kw):
    return subprocess.run(cmd, capture_output=True, text=True, **kw)


def main():
    ap = argparse.ArgumentParser()
    ap.add_argument('seed_dir')
    ap.add_argument('--props')
    ap.add_argument('--id')
    ap.add_argument('--tier', default='quick')
    ap.add_argument('--demo-only', action='store_true')
    a = ap.parse_args()
    src = os.path.abspath(a.seed_dir)
    sid = a.id or os.path.basename(src.rstrip('/'))
    dst = os.path.join(ROOT, 'refactors', sid)
    os.makedirs(dst, exist_ok=True)
    for f in ('patch.diff', 'equiv.py', 'meta.json'):
        if os.path.abspath(os.path.join(src, f)) != os.path.abspath(os.path.join(dst, f)):
            shutil.copy(os.path.join(src, f), os.path.join(dst, f))
    meta = json.load(open(os.path.join(dst, 'meta.json')))
    props = (a.props.split(',') if a.props else [meta.get('property', sid[:3].upper())])
    d = tempfile.mkdtemp(prefix='refrun-', dir='/var/tmp')
    res = dict(id=sid, property=meta.get('property'), checked_at=time.strftime('%Y-%m-%dT%H:%M:%SZ', time.gmtime()),
               repo_head=sh(['git', '-C', '/repo', 'rev-parse', '--short', 'HEAD']).stdout.strip())
    try:
        shutil.copytree('/repo/elfi', os.path.join(d, 'elfi'), ignore=shutil.ignore_patterns('__pycache__', '*.pyc', 'bdm'))
        p = sh(['patch', '-p1', '--no-backup-if-mismatch', '-d', d, '-i', os.path.join(dst, 'patch.diff')])
        res['patch_applies'] = p.returncode == 0
        if p.returncode != 0:
            res['patch_output'] = (p.stdout + p.stderr)[-600:]
            json.dump(res, open(os.path.join(dst, 'result.json'), 'w'), indent=1)
            print(json.dumps(res, indent=1))
            return 2
        env = dict(os.environ, PYTHONPATH=d, MPLBACKEND='Agg')
        t = time.time()
        # the demo may pin the seeder's worktree path: run copies with that path replaced by the tree actually used
        import re
        text = open(os.path.join(dst, 'equiv.py')).read()
        os.makedirs(os.path.join(d, '_demos'))
        demo1, demo0 = os.path.join(d, '_demos', 'demo_with.py'), os.path.join(d, '_demos', 'demo_without.py')
        d0 = os.path.join(d, '_clean')          # an unmodified copy of the current tree: the demo may insist on cwd == tree root
        shutil.copytree('/repo/elfi', os.path.join(d0, 'elfi'), ignore=shutil.ignore_patterns('__pycache__', '*.pyc', 'bdm'))
        open(demo1, 'w').write(re.sub(r'/tmp/refac-c[0-9][0-9]', d, text))
        open(demo0, 'w').write(re.sub(r'/tmp/refac-c[0-9][0-9]', d0, text))
        r1 = sh(['/venv/bin/python', demo1], env=env, cwd=d, timeout=900)
        r0 = sh(['/venv/bin/python', demo0], env=dict(os.environ, PYTHONPATH=d0, MPLBACKEND='Agg'), cwd=d0, timeout=900)
        res['demo'] = dict(with_change_exit=r1.returncode, without_change_exit=r0.returncode, with_change_tail=(r1.stdout + r1.stderr)[-300:], seconds=round(time.time() - t, 1))
        res['confirmed'] = (r1.returncode == 0 and r0.returncode == 0)
        res['checks'] = {}
        oldp = os.path.join(dst, 'result.json')
        if os.path.exists(oldp) and not a.demo_only:
            try:        # keep what other properties' checks said earlier (re-run those to refresh them)
                res['checks'] = {k: dict(v, stale=True) for k, v in json.load(open(oldp)).get('checks', {}).items() if k not in props}
            except Exception:
                pass
        if a.demo_only:
            old = os.path.join(dst, 'result.json')
            if os.path.exists(old):
                res['checks'] = json.load(open(old)).get('checks', {})
            props = []
        for pid in props:
            t = time.time()
            r = sh([os.path.join(ROOT, 'check'), pid, '--repo', d, '--no-evidence', '--tier', a.tier], cwd=ROOT, env=dict(os.environ, PYVC_REPO=d), timeout=3600)
            out = r.stdout + r.stderr
            viol = [l for l in out.splitlines() if l.startswith('VIOLATION')]
            res['checks'][pid] = dict(exit=r.returncode, false_alarm=(r.returncode == 1 or bool(viol)), ok_line=[l[:200] for l in out.splitlines() if l.startswith('OK ')][:1], detected=(r.returncode == 1 and bool(viol)), violations=len(viol),
                                      replayed=sum(1 for v in viol if 'no-failing-input-found' not in v),
                                      first=[v.split(' obligation=')[-1][:200] for v in viol[:4]],
                                      degraded=sum(1 for l in out.splitlines() if l.startswith('DEGRADED')),
                                      checker_errors=[l[:200] for l in out.splitlines() if l.startswith('CHECKER-ERROR')][:3], seconds=round(time.time() - t, 1))
        json.dump(res, open(os.path.join(dst, 'result.json'), 'w'), indent=1)
        print(json.dumps(res, indent=1))
        return 0
    finally:
        shutil.rmtree(d, ignore_errors=True)


if __name__ == '__main__':
    sys.exit(main())
