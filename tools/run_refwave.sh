#!/bin/bash
# processes every finished refactoring under /tmp/refac-*/REFAC/ that has no result.json yet, against its own property's check
# and every check whose property is anchored in a file the patch touches
cd "$(dirname "$0")/.."
for d in ${1:-/tmp/refac-c*}/REFAC/c[0-9][0-9]_r[0-9]; do
  [ -f "$d/patch.diff" ] && [ -f "$d/equiv.py" ] && [ -f "$d/meta.json" ] || continue
  id=$(basename $d)
  [ -f refactors/$id/result.json ] && continue
  props=$(python3 - "$d" <<'PY'
import json, re, sys
d = sys.argv[1]
own = d.rstrip('/').split('/')[-1][:3].upper()
files = set(re.findall(r'^\+\+\+ b/(\S+)', open(d + '/patch.diff').read(), re.M))
ps = [own]
for l in open('/verif/properties.jsonl'):
    r = json.loads(l)
    if r['id'] not in ps and files & set(r['anchors']['files']):
        ps.append(r['id'])
print(','.join(ps))
PY
)
  timeout 5400 .venv/bin/python tools/run_refactor.py $d --props $props > /var/tmp/refrun_$id.log 2>&1
  python3 - <<PY
import json
r=json.load(open('/verif/refactors/$id/result.json'))
print('$id', 'equiv_ok=%s' % r.get('confirmed'), {k:('FALSE-ALARM' if v.get('false_alarm') else 'ok', v['violations'], v['degraded']) for k,v in r.get('checks',{}).items()})
PY
done
