#!/bin/bash
# imports and runs every finished wave-2 seeded change that has no result.json yet
cd "$(dirname "$0")/.."
declare -A REL=( [c15]="C15,C18" [c04]="C04,C01" [c12]="C12,C01" [c07]="C07,C13" [c05]="C05,C06" [c11]="C11,C10" [c01]="C01,C04" )
for d in /tmp/seed2-c*/SEED/c*_[34]; do
  [ -f "$d/patch.diff" ] && [ -f "$d/demo.py" ] && [ -f "$d/meta.json" ] || continue
  id=$(basename $d); p=${id%%_*}
  [ -f seeded/$id/result.json ] && continue
  props=${REL[$p]:-$(echo $p | tr a-z A-Z)}
  timeout 3600 .venv/bin/python tools/run_seeded.py $d --props $props > /var/tmp/seedrun_$id.log 2>&1
  python3 - <<PY
import json
r=json.load(open('/verif/seeded/$id/result.json'))
print('$id', 'confirmed=%s' % r.get('confirmed'), {k:('DET' if v['detected'] else 'miss', v['replayed']) for k,v in r.get('checks',{}).items()})
PY
done
