#!/bin/bash
# imports and runs every finished wave-3 seeded change (/tmp/seed3-cNN/SEED/cNN_[56]) that has no result.json yet, against its own
# property's check and every check whose property is anchored in a file the patch touches.  usage: tools/run_wave3.sh [cNN ...]
cd "$(dirname "$0")/.."
sel=${@:-c[0-9][0-9]}
for s in $sel; do
for d in /tmp/seed3-$s/SEED/c[0-9][0-9]_[56]; do
  [ -f "$d/patch.diff" ] && [ -f "$d/demo.py" ] && [ -f "$d/meta.json" ] || continue
  id=$(basename $d)
  [ -f seeded/$id/result.json ] && continue
  props=$(python3 - "$d" <<'PY'
import json, re, sys
d = sys.argv[1]
own = d.rstrip('/').split('/')[-1][:3].upper()
files = set(re.findall(r'^\+\+\+ b/(\S+)', open(d + '/patch.diff').read(), re.M))
ps = [own]
for l in open('/verif/properties.jsonl'):
    r = json.loads(l)
    if r['id'] not in ps and files & set(r['anchors']['files']):
        ps.append(r['id'])
print(','.join(ps[:5]))
PY
)
  timeout 3600 .venv/bin/python tools/run_seeded.py $d --props $props > /var/tmp/runlogs/seed_$id.log 2>&1
  python3 - <<PY
import json
r=json.load(open('/verif/seeded/$id/result.json'))
print('$id', 'confirmed=%s' % r.get('confirmed'), {k:('DET' if v['detected'] else 'miss', v['replayed'], (v.get('first') or [''])[0][:110]) for k,v in r.get('checks',{}).items()})
PY
done
done
