#!/usr/bin/env python3
"""prints the per-property status table (markdown) from evidence/*.json, selftest/mutants.d, seeded/*/result.json"""
import glob, json, os
ROOT = os.path.dirname(os.path.dirname(os.path.abspath(__file__)))
props = [json.loads(l) for l in open(os.path.join(ROOT, 'properties.jsonl'))]
print('| id | level | functions × cases under contract | obligations (discharged) | back ends | bounded cases | known findings | mutants kill/survive | quick wall |')
print('|---|---|---|---|---|---|---|---|---|')
for p in props:
    pid = p['id']
    f = os.path.join(ROOT, 'evidence', pid + '.json')
    if not os.path.exists(f):
        print('| %s | - | - | - | - | - | - | - | - |' % pid); continue
    e = json.load(open(f)); c = e['coverage']
    fns = c.get('functions_under_contract', [])
    nfun = len({x['function'] for x in fns})
    be = ', '.join('%s %d' % (k.replace('z3-5.1.0', 'z3').replace('cvc5-1.0.3', 'cvc5').replace('sympy-1.14.0', 'sympy'), v) for k, v in sorted(c.get('backends', {}).items(), key=lambda kv: -kv[1]))
    mf = os.path.join(ROOT, 'selftest', 'mutants.d', pid.lower() + '.json')
    mk = ms = 0
    if os.path.exists(mf):
        ms_ = json.load(open(mf)); mk = sum(1 for m in ms_ if m.get('expect', 'kill') == 'kill'); ms = len(ms_) - mk
    print('| %s | %s | %d × %d | %d (%d) | %s | %d | %s | %d / %d | %.0f s |' % (pid, e['level'], nfun, len(fns), c['obligations'], c['discharged'], be, sum(b.get('cases', 0) for b in c.get('bounded', [])),
          ', '.join(c.get('known_findings', [])) or '-', mk, ms, e['wall_s']))
print()
print('| seeded change | property | what it needs | detected by | how |')
print('|---|---|---|---|---|')
for d in sorted(glob.glob(os.path.join(ROOT, 'seeded', '*'))):
    rf, mf = os.path.join(d, 'result.json'), os.path.join(d, 'meta.json')
    if not os.path.exists(rf): continue
    r, m = json.load(open(rf)), json.load(open(mf))
    det = []
    for pid, ck in r.get('checks', {}).items():
        if ck.get('detected'):
            first = (ck.get('first') or [''])[0]
            how = 'bounded stand-in' if first.startswith('bounded:') else 'refuted obligation'
            det.append('%s (%s%s)' % (pid, how, ', native replay' if ck.get('replayed') else ', no-failing-input-found'))
    print('| %s | %s | %s | %s | %s |' % (os.path.basename(d), m.get('property'), (m.get('needs') or '')[:110].replace('|', '/').replace('\n', ' '), ', '.join(det) or '**missed**',
          '; '.join((ck.get('first') or [''])[0][:90] for ck in r.get('checks', {}).values() if ck.get('detected'))[:140].replace('|', '/')))
print()
print('| refactoring | property | what was restructured | checks run | alarms | undecided (DEGRADED) obligations |')
print('|---|---|---|---|---|---|')
for d in sorted(glob.glob(os.path.join(ROOT, 'refactors', '*'))):
    rf, mf = os.path.join(d, 'result.json'), os.path.join(d, 'meta.json')
    if not os.path.exists(rf): continue
    r, m = json.load(open(rf)), json.load(open(mf))
    cks = r.get('checks', {})
    alarms = [pid for pid, ck in cks.items() if ck.get('exit') not in (0,) or ck.get('violations')]
    print('| %s | %s | %s | %s | %s | %s |' % (os.path.basename(d), m.get('property'), (m.get('summary') or '')[:140].replace('|', '/').replace('\n', ' '),
          ', '.join(cks), ', '.join(alarms) or 'none', ', '.join('%s %d' % (pid, ck.get('degraded', 0)) for pid, ck in cks.items() if ck.get('degraded')) or '-'))
