#!/usr/bin/env python3
"""Regenerates MANIFEST.json from contracts/*.py metadata (MANIFEST dict in each property module)
and validates it and every evidence file against the schemas in /root/.vp."""
import importlib, json, os, sys
ROOT = os.path.dirname(os.path.abspath(__file__))
sys.path.insert(0, ROOT)
PROPS = [json.loads(l) for l in open(os.path.join(ROOT, 'properties.jsonl'))]
BASE = json.load(open('/root/.vp/BASELINE.json'))

def main():
    checks, na = [], []
    for p in PROPS:
        pid = p['id']
        path = os.path.join(ROOT, 'contracts', pid.lower() + '.py')
        meta = None
        if os.path.exists(path):
            src = open(path).read()
            # MANIFEST metadata is a literal dict at module level, read without importing z3
            import ast
            for n in ast.parse(src).body:
                if isinstance(n, ast.Assign) and getattr(n.targets[0], 'id', None) == 'MANIFEST':
                    meta = ast.literal_eval(n.value)
        ready = set(open(os.path.join(ROOT, 'ready.txt')).read().split())
        if meta is not None and not meta.get('not_applicable') and pid not in ready:
            na.append(dict(property_id=pid, reason='check under construction in this round (contracts exist but are not yet registered); no check is claimed'))
            continue
        if meta is None or meta.get('not_applicable'):
            na.append(dict(property_id=pid, reason=(meta or {}).get('not_applicable', 'not built yet in this round (see DESIGN.md 5 for the plan); no check is claimed')))
            continue
        checks.append(dict(property_id=pid, quick_cmd='./check %s --tier quick' % pid, thorough_cmd='./check %s --tier thorough' % pid,
                           evidence_file='evidence/%s.json' % pid, replay_cmd_template='./check %s --replay {path}' % pid, engine='pyvc',
                           level_claimed=dict(category=meta.get('category', 'proof'), text=meta['text'], design_ref=meta.get('design_ref', 'DESIGN.md 5 ' + pid)),
                           level_note=meta['note'], technique=meta.get('technique', 'contract-based deductive verification: VCs generated from the real source (pyvc), discharged by z3/cvc5')))
    m = dict(version=1, setup_cmd='./setup.sh',
             hooks=dict(guard='ELFI_VERIF', enable='no hooks are needed: contracts are sidecar files and /repo is only read', baseline_off_cmd=BASE['cmd'].replace('--junitxml=<file>', '').strip(), source_commits=[], add_only=True),
             engines=[dict(name='pyvc', path='pyvc/', serves_properties=[c['property_id'] for c in checks],
                           kind_free_text='self-built deductive verifier for Python: the real function source is read from /repo on every run, mechanically instrumented (loops cut at contract invariants), executed by CPython over symbolic proxy values to generate verification conditions per path and clause, discharged by z3 5.1 / cvc5 1.0.3; sympy for closed-form identities; finitised re-generation for counter-models; bounded stand-ins labelled as such')],
             checks=checks, not_applicable=na,
             notes='Checks read /repo working tree at run time; nothing under /tmp is needed. KNOWN_FINDINGS.jsonl lists recorded defects and fixed: lines.')
    json.dump(m, open(os.path.join(ROOT, 'MANIFEST.json'), 'w'), indent=1)
    import jsonschema
    jsonschema.validate(m, json.load(open('/root/.vp/MANIFEST.schema.json')))
    es = json.load(open('/root/.vp/EVIDENCE.schema.json'))
    for c in checks:
        f = os.path.join(ROOT, c['evidence_file'])
        if os.path.exists(f):
            jsonschema.validate(json.load(open(f)), es)
            print('evidence ok', c['property_id'])
        else:
            print('evidence MISSING', c['property_id'])
    print('manifest ok: %d checks, %d not_applicable' % (len(checks), len(na)))
main()
